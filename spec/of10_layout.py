"""OpenFlow 1.0.0 wire layouts (openflow.h) transcribed as tables, independently of the code under proof.

Each table is a list of fields in wire order:
  ("u", nbytes, name)       unsigned big-endian integer
  ("pad", nbytes)           zero padding
  ("mac", name)             6-byte Ethernet address
  ("ip", name)              4-byte IPv4 address (network order)
  ("zs", nbytes, name)      NUL-padded string in a fixed field
  ("type8", ) / ("type16",) the structure's own type code (message type / action type / property type)
  ("len16",)                total length of the structure in bytes
  ("tail", name)            remaining bytes
  ("sub", table, name)      embedded fixed structure
  ("list", name)            sequence of embedded variable structures (each encodes its own length)
  ("lenof16", name)         16-bit length in bytes of the named list
  ("const", nbytes, value)  a fixed value the specification prescribes at this place (vendor id, subtype code)

SIZEOF gives the OFP_ASSERT(sizeof(...)) values of openflow.h used as a cross-check of the tables.
"""

HEADER = [("u", 1, "version"), ("type8",), ("len16",), ("u", 4, "xid")]

PHY_PORT = [("u", 2, "port_no"), ("mac", "hw_addr"), ("zs", 16, "name"), ("u", 4, "config"), ("u", 4, "state"),
            ("u", 4, "curr"), ("u", 4, "advertised"), ("u", 4, "supported"), ("u", 4, "peer")]

MATCH = [("u", 4, "wildcards"), ("u", 2, "in_port"), ("mac", "dl_src"), ("mac", "dl_dst"), ("u", 2, "dl_vlan"),
         ("u", 1, "dl_vlan_pcp"), ("pad", 1), ("u", 2, "dl_type"), ("u", 1, "nw_tos"), ("u", 1, "nw_proto"),
         ("pad", 2), ("u", 4, "nw_src"), ("u", 4, "nw_dst"), ("u", 2, "tp_src"), ("u", 2, "tp_dst")]

TABLES = {
  # ---- common structures
  "ofp_phy_port": PHY_PORT,
  "ofp_match": MATCH,
  "ofp_packet_queue": [("u", 4, "queue_id"), ("len16",), ("pad", 2), ("list", "properties")],
  "ofp_queue_prop_min_rate": [("type16",), ("len16",), ("pad", 4), ("u", 2, "rate"), ("pad", 6)],
  "ofp_queue_prop_generic": [("u", 2, "property"), ("len16",), ("tail", "data")],
  # ---- actions
  "ofp_action_output": [("type16",), ("len16",), ("u", 2, "port"), ("u", 2, "max_len")],
  "ofp_action_enqueue": [("type16",), ("len16",), ("u", 2, "port"), ("pad", 6), ("u", 4, "queue_id")],
  "ofp_action_strip_vlan": [("type16",), ("len16",), ("pad", 4)],
  "ofp_action_vlan_vid": [("type16",), ("len16",), ("u", 2, "vlan_vid"), ("pad", 2)],
  "ofp_action_vlan_pcp": [("type16",), ("len16",), ("u", 1, "vlan_pcp"), ("pad", 3)],
  "ofp_action_dl_addr": [("u", 2, "type"), ("len16",), ("mac", "dl_addr"), ("pad", 6)],
  "ofp_action_nw_addr": [("u", 2, "type"), ("len16",), ("ip", "nw_addr")],
  "ofp_action_nw_tos": [("type16",), ("len16",), ("u", 1, "nw_tos"), ("pad", 3)],
  "ofp_action_tp_port": [("u", 2, "type"), ("len16",), ("u", 2, "tp_port"), ("pad", 2)],
  "ofp_action_vendor_generic": [("type16",), ("len16",), ("u", 4, "vendor"), ("tail", "body")],
  "ofp_action_generic": [("u", 2, "type"), ("len16",), ("tail", "data")],
  # ---- messages
  "ofp_hello": HEADER,
  "ofp_error": HEADER + [("u", 2, "type"), ("u", 2, "code"), ("tail", "data")],
  "ofp_echo_request": HEADER + [("tail", "body")],
  "ofp_echo_reply": HEADER + [("tail", "body")],
  "ofp_vendor_generic": HEADER + [("u", 4, "vendor"), ("tail", "data")],
  "ofp_features_request": HEADER,
  "ofp_features_reply": HEADER + [("u", 8, "datapath_id"), ("u", 4, "n_buffers"), ("u", 1, "n_tables"), ("pad", 3),
                                  ("u", 4, "capabilities"), ("u", 4, "actions"), ("list", "ports")],
  "ofp_get_config_request": HEADER,
  "ofp_get_config_reply": HEADER + [("u", 2, "flags"), ("u", 2, "miss_send_len")],
  "ofp_set_config": HEADER + [("u", 2, "flags"), ("u", 2, "miss_send_len")],
  "ofp_packet_in": HEADER + [("u", 4, "buffer_id"), ("u", 2, "total_len"), ("u", 2, "in_port"), ("u", 1, "reason"),
                             ("pad", 1), ("tail", "data")],
  "ofp_flow_removed": HEADER + [("sub", MATCH, "match"), ("u", 8, "cookie"), ("u", 2, "priority"), ("u", 1, "reason"),
                                ("pad", 1), ("u", 4, "duration_sec"), ("u", 4, "duration_nsec"),
                                ("u", 2, "idle_timeout"), ("pad", 2), ("u", 8, "packet_count"),
                                ("u", 8, "byte_count")],
  "ofp_port_status": HEADER + [("u", 1, "reason"), ("pad", 7), ("sub", PHY_PORT, "desc")],
  "ofp_packet_out": HEADER + [("u", 4, "buffer_id"), ("u", 2, "in_port"), ("lenof16", "actions"), ("list", "actions"),
                              ("tail", "data")],
  "ofp_flow_mod": HEADER + [("sub", MATCH, "match"), ("u", 8, "cookie"), ("u", 2, "command"), ("u", 2, "idle_timeout"),
                            ("u", 2, "hard_timeout"), ("u", 2, "priority"), ("u", 4, "buffer_id"), ("u", 2, "out_port"),
                            ("u", 2, "flags"), ("list", "actions")],
  "ofp_port_mod": HEADER + [("u", 2, "port_no"), ("mac", "hw_addr"), ("u", 4, "config"), ("u", 4, "mask"),
                            ("u", 4, "advertise"), ("pad", 4)],
  "ofp_stats_request": HEADER + [("u", 2, "type"), ("u", 2, "flags"), ("tail", "body")],
  "ofp_stats_reply": HEADER + [("u", 2, "type"), ("u", 2, "flags"), ("tail", "body")],
  "ofp_barrier_request": HEADER,
  "ofp_barrier_reply": HEADER,
  "ofp_queue_get_config_request": HEADER + [("u", 2, "port"), ("pad", 2)],
  "ofp_queue_get_config_reply": HEADER + [("u", 2, "port"), ("pad", 6), ("list", "queues")],
  # ---- statistics bodies
  "ofp_desc_stats": [("zs", 256, "mfr_desc"), ("zs", 256, "hw_desc"), ("zs", 256, "sw_desc"), ("zs", 32, "serial_num"),
                     ("zs", 256, "dp_desc")],
  "ofp_flow_stats_request": [("sub", MATCH, "match"), ("u", 1, "table_id"), ("pad", 1), ("u", 2, "out_port")],
  "ofp_flow_stats": [("len16",), ("u", 1, "table_id"), ("pad", 1), ("sub", MATCH, "match"), ("u", 4, "duration_sec"),
                     ("u", 4, "duration_nsec"), ("u", 2, "priority"), ("u", 2, "idle_timeout"), ("u", 2, "hard_timeout"),
                     ("pad", 6), ("u", 8, "cookie"), ("u", 8, "packet_count"), ("u", 8, "byte_count"),
                     ("list", "actions")],
  "ofp_aggregate_stats_request": [("sub", MATCH, "match"), ("u", 1, "table_id"), ("pad", 1), ("u", 2, "out_port")],
  "ofp_aggregate_stats": [("u", 8, "packet_count"), ("u", 8, "byte_count"), ("u", 4, "flow_count"), ("pad", 4)],
  "ofp_table_stats": [("u", 1, "table_id"), ("pad", 3), ("zs", 32, "name"), ("u", 4, "wildcards"), ("u", 4, "max_entries"),
                      ("u", 4, "active_count"), ("u", 8, "lookup_count"), ("u", 8, "matched_count")],
  "ofp_port_stats_request": [("u", 2, "port_no"), ("pad", 6)],
  "ofp_port_stats": [("u", 2, "port_no"), ("pad", 6)] + [("u", 8, n) for n in (
      "rx_packets", "tx_packets", "rx_bytes", "tx_bytes", "rx_dropped", "tx_dropped", "rx_errors", "tx_errors",
      "rx_frame_err", "rx_over_err", "rx_crc_err", "collisions")],
  "ofp_queue_stats_request": [("u", 2, "port_no"), ("pad", 2), ("u", 4, "queue_id")],
  "ofp_queue_stats": [("u", 2, "port_no"), ("pad", 2), ("u", 4, "queue_id"), ("u", 8, "tx_bytes"), ("u", 8, "tx_packets"),
                      ("u", 8, "tx_errors")],
  "ofp_vendor_stats_generic": [("u", 4, "vendor"), ("tail", "data")],
}

# OFP_ASSERT(sizeof(struct ...) == N) of openflow.h 1.0.0 (fixed parts)
SIZEOF = {
  "ofp_hello": 8, "ofp_phy_port": 48, "ofp_match": 40, "ofp_packet_queue": 8, "ofp_queue_prop_min_rate": 16,
  "ofp_action_output": 8, "ofp_action_enqueue": 16, "ofp_action_strip_vlan": 8, "ofp_action_vlan_vid": 8,
  "ofp_action_vlan_pcp": 8, "ofp_action_dl_addr": 16, "ofp_action_nw_addr": 8, "ofp_action_nw_tos": 8,
  "ofp_action_tp_port": 8, "ofp_action_vendor_generic": 8, "ofp_error": 12, "ofp_features_reply": 32,
  "ofp_get_config_reply": 12, "ofp_set_config": 12, "ofp_packet_in": 18, "ofp_flow_removed": 88,
  "ofp_port_status": 64, "ofp_packet_out": 16, "ofp_flow_mod": 72, "ofp_port_mod": 32, "ofp_stats_request": 12,
  "ofp_stats_reply": 12, "ofp_queue_get_config_request": 12, "ofp_queue_get_config_reply": 16,
  "ofp_desc_stats": 1056, "ofp_flow_stats_request": 44, "ofp_flow_stats": 88, "ofp_aggregate_stats_request": 44,
  "ofp_aggregate_stats": 24, "ofp_table_stats": 64, "ofp_port_stats_request": 8, "ofp_port_stats": 104,
  "ofp_queue_stats_request": 8, "ofp_queue_stats": 32, "ofp_vendor_generic": 12,
}

# type codes of openflow.h (enum ofp_type, ofp_action_type, ofp_queue_properties)
MESSAGE_TYPE = {
  "ofp_hello": 0, "ofp_error": 1, "ofp_echo_request": 2, "ofp_echo_reply": 3, "ofp_vendor_generic": 4,
  "ofp_features_request": 5, "ofp_features_reply": 6, "ofp_get_config_request": 7, "ofp_get_config_reply": 8,
  "ofp_set_config": 9, "ofp_packet_in": 10, "ofp_flow_removed": 11, "ofp_port_status": 12, "ofp_packet_out": 13,
  "ofp_flow_mod": 14, "ofp_port_mod": 15, "ofp_stats_request": 16, "ofp_stats_reply": 17, "ofp_barrier_request": 18,
  "ofp_barrier_reply": 19, "ofp_queue_get_config_request": 20, "ofp_queue_get_config_reply": 21,
}
ACTION_TYPE = {
  "ofp_action_output": 0, "ofp_action_vlan_vid": 1, "ofp_action_vlan_pcp": 2, "ofp_action_strip_vlan": 3,
  "ofp_action_nw_tos": 8, "ofp_action_enqueue": 11, "ofp_action_vendor_generic": 0xffff,
}
QUEUE_PROP_TYPE = {"ofp_queue_prop_min_rate": 1}


def fixed_size(table):
  n = 0
  for f in table:
    k = f[0]
    if k in ("u", "pad", "zs"):
      n += f[1]
    elif k == "mac":
      n += 6
    elif k == "ip":
      n += 4
    elif k == "type8":
      n += 1
    elif k in ("type16", "len16", "lenof16"):
      n += 2
    elif k == "const":
      n += f[1]
    elif k == "sub":
      n += fixed_size(f[1])
  return n


def be(v, n):
  return bytes([(v >> (8 * (n - 1 - i))) & 0xff for i in range(n)])


def layout(table, vals, typecode, total_len):
  """bytes of a structure whose field values are vals[name] (ints, 6/4-byte strings, text, byte tails,
  already-encoded list elements) under `table`"""
  out = b""
  for f in table:
    k = f[0]
    if k == "u":
      out = out + be(vals[f[2]], f[1])
    elif k == "pad":
      out = out + bytes(f[1])
    elif k == "const":
      out = out + be(f[2], f[1])
    elif k == "mac" or k == "ip":
      out = out + vals[f[1]]
    elif k == "zs":
      s = vals[f[2]]
      out = out + s + bytes(f[1] - len(s))
    elif k == "type8":
      out = out + be(typecode, 1)
    elif k == "type16":
      out = out + be(typecode, 2)
    elif k == "len16":
      out = out + be(total_len, 2)
    elif k == "lenof16":
      out = out + be(vals["#len:" + f[1]], 2)
    elif k == "tail":
      out = out + vals[f[1]]
    elif k == "sub":
      out = out + layout(f[1], vals[f[2]], None, None)
    elif k == "list":
      for e in vals[f[1]]:
        out = out + e
  return out
