"""Nicira extension wire layouts (Open vSwitch nicira-ext.h, as of the OVS 1.x / 2.0 series POX targets), transcribed
as tables in the format of of10_layout.py, independently of the code under proof.

Vendor messages:  struct nicira_header { ofp_header (type OFPT_VENDOR = 4); uint32 vendor = NX_VENDOR_ID; uint32 subtype }
Vendor actions:   struct nx_action_header { uint16 type = OFPAT_VENDOR (0xffff); uint16 len; uint32 vendor = NX_VENDOR_ID;
                                            uint16 subtype; ... } - every action is a multiple of 8 bytes
"""
from spec.of10_layout import HEADER

NX_VENDOR_ID = 0x00002320
OFPT_VENDOR = 4
OFPAT_VENDOR = 0xffff

# enum nicira_type
NXT = {"NXT_ROLE_REQUEST": 10, "NXT_ROLE_REPLY": 11, "NXT_SET_FLOW_FORMAT": 12, "NXT_FLOW_MOD": 13, "NXT_FLOW_REMOVED": 14,
       "NXT_FLOW_MOD_TABLE_ID": 15, "NXT_SET_PACKET_IN_FORMAT": 16, "NXT_PACKET_IN": 17, "NXT_FLOW_AGE": 18,
       "NXT_SET_ASYNC_CONFIG": 19, "NXT_SET_CONTROLLER_ID": 20}

# enum nx_action_subtype
NXAST = {"NXAST_RESUBMIT": 1, "NXAST_SET_TUNNEL": 2, "NXAST_SET_QUEUE": 4, "NXAST_POP_QUEUE": 5, "NXAST_REG_MOVE": 6,
         "NXAST_REG_LOAD": 7, "NXAST_NOTE": 8, "NXAST_SET_TUNNEL64": 9, "NXAST_MULTIPATH": 10, "NXAST_BUNDLE": 12,
         "NXAST_BUNDLE_LOAD": 13, "NXAST_RESUBMIT_TABLE": 14, "NXAST_OUTPUT_REG": 15, "NXAST_LEARN": 16, "NXAST_EXIT": 17,
         "NXAST_DEC_TTL": 18, "NXAST_FIN_TIMEOUT": 19, "NXAST_CONTROLLER": 20, "NXAST_DEC_TTL_CNT_IDS": 21,
         "NXAST_WRITE_METADATA": 22, "NXAST_PUSH_MPLS": 23, "NXAST_POP_MPLS": 24, "NXAST_SET_MPLS_TTL": 25,
         "NXAST_DEC_MPLS_TTL": 26, "NXAST_STACK_PUSH": 27, "NXAST_STACK_POP": 28, "NXAST_SAMPLE": 29,
         "NXAST_SET_MPLS_LABEL": 30, "NXAST_SET_MPLS_TC": 31}


def NXMSG(subtype):
  return HEADER + [("const", 4, NX_VENDOR_ID), ("const", 4, NXT[subtype])]


def NXACT(subtype):
  return [("type16",), ("len16",), ("const", 4, NX_VENDOR_ID), ("const", 2, NXAST[subtype])]


def NXACT_ANY():
  # actions that serve two subtypes (resubmit / resubmit_table): the subtype is a field
  return [("type16",), ("len16",), ("const", 4, NX_VENDOR_ID), ("u", 2, "subtype")]


TABLES = {
  # ---- vendor messages
  # struct nx_flow_mod_table_id { nicira_header; uint8 set; uint8 pad[7] }
  "nx_flow_mod_table_id": NXMSG("NXT_FLOW_MOD_TABLE_ID") + [("u", 1, "enable"), ("pad", 7)],
  # struct nx_set_packet_in_format { nicira_header; uint32 format }
  "nx_packet_in_format": NXMSG("NXT_SET_PACKET_IN_FORMAT") + [("u", 4, "format")],
  # struct nx_role_request { nicira_header; uint32 role }
  "nx_role_request": NXMSG("NXT_ROLE_REQUEST") + [("u", 4, "role")],
  "nx_role_reply": NXMSG("NXT_ROLE_REPLY") + [("u", 4, "role")],
  # struct nx_async_config { nicira_header; uint32 packet_in_mask[2]; uint32 port_status_mask[2]; uint32 flow_removed_mask[2] }
  # index 0: master / other role, index 1: slave role
  "nx_async_config": NXMSG("NXT_SET_ASYNC_CONFIG") + [("u", 4, "packet_in_mask"), ("u", 4, "packet_in_mask_slave"),
                                                      ("u", 4, "port_status_mask"), ("u", 4, "port_status_mask_slave"),
                                                      ("u", 4, "flow_removed_mask"), ("u", 4, "flow_removed_mask_slave")],
  # ---- vendor actions
  # struct nx_action_resubmit { header(subtype RESUBMIT or RESUBMIT_TABLE); uint16 in_port; uint8 table; uint8 pad[3] }
  "nx_action_resubmit": NXACT_ANY() + [("u", 2, "in_port"), ("u", 1, "table"), ("pad", 3)],
  # struct nx_action_set_tunnel { header; uint8 pad[2]; uint32 tun_id }
  "nx_action_set_tunnel": NXACT("NXAST_SET_TUNNEL") + [("pad", 2), ("u", 4, "tun_id")],
  # struct nx_action_set_tunnel64 { header; uint8 pad[6]; uint64 tun_id }
  "nx_action_set_tunnel64": NXACT("NXAST_SET_TUNNEL64") + [("pad", 6), ("u", 8, "tun_id")],
  # struct nx_action_fin_timeout { header; uint16 fin_idle_timeout; uint16 fin_hard_timeout; uint16 pad }
  "nx_action_fin_timeout": NXACT("NXAST_FIN_TIMEOUT") + [("u", 2, "fin_idle_timeout"), ("u", 2, "fin_hard_timeout"), ("pad", 2)],
  # struct nx_action_header used bare: uint8 pad[6]
  "nx_action_exit": NXACT("NXAST_EXIT") + [("pad", 6)],
  "nx_action_dec_ttl": NXACT("NXAST_DEC_TTL") + [("pad", 6)],
  # struct nx_action_controller { header; uint16 max_len; uint16 controller_id; uint8 reason; uint8 zero }
  "nx_action_controller": NXACT("NXAST_CONTROLLER") + [("u", 2, "max_len"), ("u", 2, "controller_id"), ("u", 1, "reason"), ("pad", 1)],
  # struct nx_action_push_mpls / pop_mpls { header; ovs_be16 ethertype; uint8 pad[4] }
  "nx_action_push_mpls": NXACT("NXAST_PUSH_MPLS") + [("u", 2, "ethertype"), ("pad", 4)],
  "nx_action_pop_mpls": NXACT("NXAST_POP_MPLS") + [("u", 2, "ethertype"), ("pad", 4)],
  # struct nx_action_mpls_label { header; uint8 zeros[2]; ovs_be32 label }
  "nx_action_mpls_label": NXACT("NXAST_SET_MPLS_LABEL") + [("pad", 2), ("u", 4, "label")],
  # struct nx_action_mpls_tc { header; uint8 tc; uint8 pad[5] }
  "nx_action_mpls_tc": NXACT("NXAST_SET_MPLS_TC") + [("u", 1, "tc"), ("pad", 5)],
}

SIZEOF = {"nx_flow_mod_table_id": 24, "nx_packet_in_format": 20, "nx_role_request": 20, "nx_role_reply": 20, "nx_async_config": 40,
          "nx_action_resubmit": 16, "nx_action_set_tunnel": 16, "nx_action_set_tunnel64": 24, "nx_action_fin_timeout": 16,
          "nx_action_exit": 16, "nx_action_dec_ttl": 16, "nx_action_controller": 16, "nx_action_push_mpls": 16,
          "nx_action_pop_mpls": 16, "nx_action_mpls_label": 16, "nx_action_mpls_tc": 16}
