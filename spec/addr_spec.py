"""Independent specification of address arithmetic (C16).  Plain Python over ints / bytes only, so it runs
natively (replay, cross-check) and is evaluated symbolically by pyvc (proof).  Nothing here is derived from
pox/lib/addresses.py."""

M32 = 0xffffffff


def be_bytes(v, n):
  """n-byte big-endian representation of 0 <= v < 256**n"""
  return bytes([(v >> (8 * (n - 1 - i))) & 0xff for i in range(n)])


def le_bytes(v, n):
  return bytes([(v >> (8 * i)) & 0xff for i in range(n)])


def be_value(b, n):
  r = 0
  for i in range(n):
    r = r * 256 + b[i]
  return r


def le_value(b, n):
  r = 0
  for i in range(n):
    r = r + b[i] * (256 ** i)
  return r


def signed32(u):
  return u - (1 << 32) if u >= (1 << 31) else u


def mask4(bits):
  """netmask with `bits` leading ones, 0 <= bits <= 32"""
  return (1 << 32) - (1 << (32 - bits))


def mask6(bits):
  return (1 << 128) - (1 << (128 - bits))


def in_net(a, n, bits, width):
  """address a lies in network n/bits (n has no host bits): equal under the prefix mask"""
  h = 1 << (width - bits)
  return (a // h) == (n // h)


def host_bits_zero(n, bits, width):
  return n % (1 << (width - bits)) == 0


def classful_bits(a):
  """network bits of the classful network of a (RFC 791): 0.0.0.0 -> 0, A 8, B 16, C 24, D/E 32"""
  if a == 0:
    return 0
  top = a >> 28
  if top < 8:
    return 8
  if top < 12:
    return 16
  if top < 14:
    return 24
  return 32


def is_mask4(v):
  """v is a contiguous netmask: one of the 33 values mask4(0..32)"""
  return any([v == mask4(k) for k in range(33)])
