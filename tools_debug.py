"""debug helper: run one unit in-process, print obligations; optional dump of unknown obligations"""
import sys, threading, time
sys.path.insert(0, '/verif'); sys.path.insert(0, '/repo')
from pyvc import driver
def main():
  prop, name = sys.argv[1], sys.argv[2]
  oto = int(sys.argv[3]) if len(sys.argv) > 3 else 20000
  r = driver.run_unit_symbolic(prop, name, oto)
  print("status", r.get("status"), r.get("error"))
  if r.get("traceback"): print(r["traceback"])
  for ob in r.get("obligations", []):
    print("  %-8s %-70s t=%s paths=%s %s %s" % (ob["status"], ob["name"], ob.get("time"), ob.get("paths"), ob.get("detail") or "", ob.get("inputs") or ""))
  print(r.get("solver")); print(r.get("paths")); print("wall", r.get("wall_s"))
  for n in r.get("notes", []): print("  note:", n)
main()
